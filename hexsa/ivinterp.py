"""Engine I: interval x bit-slice abstract interpretation of small C++ functions (clang AST).

A value is IV(width, signed, lo, hi, bits): an interval of the C++ type plus, optionally, a bit view whose
entries are 0, 1, ('V', i) (bit i of the analysed input) or None (unknown).  Branch conditions must be
*uniform* on the current abstract state; otherwise NeedSplit is raised and the driver splits the input
class (trace partitioning), so loops run with concrete trip counts and verdicts hold for every member of
the class.  Undefined behaviour that the C++ standard attaches to an operation (signed overflow,
abs/negation of INT_MIN, oversized shifts) is recorded as an event with the class in which it occurs.
"""
from .cast import children, strip_noncast, qt, dqt, pos, callee_of, call_args, const_int, walk
from .cxxsym import tinfo
from .frontend import AnalysisBroken


DEFAULT_ARG = ('default-argument',)


class LoopBudget(AnalysisBroken):
    """A loop whose condition was decided (uniform) in every iteration ran longer than the interpreter's bound: on the analysed class
    it needs more iterations than any terminating use in this code base -- clients may read this as non-termination."""


class NeedSplit(Exception):
    def __init__(self, at=None, why=''):
        Exception.__init__(self, why)
        self.at = at


class Thrown(Exception):
    def __init__(self, what):
        Exception.__init__(self, what)
        self.what = what


class _Break(Exception):
    pass


class _Continue(Exception):
    pass


class _Return(Exception):
    def __init__(self, v):
        self.v = v


def rng(w, signed):
    return (-(1 << (w - 1)), (1 << (w - 1)) - 1) if signed else (0, (1 << w) - 1)


class IV:
    __slots__ = ('w', 'signed', 'lo', 'hi', 'bits', 'src', 'aff', 'lbs')

    def __init__(self, w, signed, lo, hi, bits=None, src=None, aff=None):
        self.w = w
        self.signed = signed
        self.lo = lo
        self.hi = hi
        self.bits = bits
        self.src = src    # 'input' if this value is the analysed input itself (identity), for exact split points
        self.aff = aff    # exact affine form over named symbols: ({sym: coeff}, const) or None
        self.lbs = None   # optional list of affine lower bounds (result of std::max over symbolic operands)
        if aff is None and lo == hi:
            self.aff = ({}, lo)

    def concrete(self):
        return self.lo == self.hi

    def __repr__(self):
        t = ('i' if self.signed else 'u') + str(self.w)
        if self.concrete():
            return '%s:%d' % (t, self.lo)
        return '%s:[%d,%d]' % (t, self.lo, self.hi)


def aff_add(a, b, sign=1):
    if a is None or b is None:
        return None
    d = dict(a[0])
    for k, c in b[0].items():
        d[k] = d.get(k, 0) + sign * c
        if d[k] == 0:
            del d[k]
    return (d, a[1] + sign * b[1])


def aff_eq(a, b):
    return a is not None and b is not None and a[0] == b[0] and a[1] == b[1]


def aff_str(a):
    if a is None:
        return '?'
    parts = ['%s%s' % ('' if c == 1 else '%d*' % c, k) for k, c in sorted(a[0].items())]
    if a[1] or not parts:
        parts.append(str(a[1]))
    return ' + '.join(parts)


def bits_add(x, y, w, sub=False):
    """Ripple-carry addition on bit views: exact on the low bits as long as both operands' bits are constants."""
    if x is None or y is None:
        return None
    out = []
    carry = 1 if sub else 0
    known = True
    for i in range(w):
        a, b = x[i], y[i]
        if sub and b in (0, 1):
            b = 1 - b
        elif sub:
            b = None
        if known and a in (0, 1) and b in (0, 1):
            t = a + b + carry
            out.append(t & 1)
            carry = t >> 1
        else:
            known = False
            out.append(None)
    return out


def str_cat(a, b):
    """Concatenation of (possibly abstract) strings: ('str', text) | ('num', IV) | ('cat', [parts])."""
    def parts(x):
        if isinstance(x, IV) and x.w == 8 and x.concrete():
            return [('str', chr(x.lo & 0xFF))]
        if isinstance(x, tuple) and x[0] == 'cat':
            return list(x[1])
        if isinstance(x, tuple) and x[0] in ('str', 'num'):
            return [x]
        return [('opaque', x)]
    out = []
    for p_ in parts(a) + parts(b):
        if out and out[-1][0] == 'str' and p_[0] == 'str':
            out[-1] = ('str', out[-1][1] + p_[1])
        else:
            out.append(p_)
    if len(out) == 1:
        return out[0]
    return ('cat', out)


def str_chars(s):
    """The characters of an abstract string as a list of 8-bit values, or None when a part has no known length."""
    parts = [s] if isinstance(s, tuple) and s and s[0] in ('str', 'opaque') else (list(s[1]) if isinstance(s, tuple) and s and s[0] == 'cat' else None)
    if parts is None:
        return None
    out = []
    for p_ in parts:
        if p_[0] == 'str':
            out += [const(8, True, ord(c) if ord(c) < 128 else ord(c) - 256) for c in p_[1]]
        elif p_[0] == 'opaque' and isinstance(p_[1], IV) and p_[1].w == 8:
            out.append(p_[1])
        else:
            return None
    return out


def _is_string_type(t):
    t = t.replace('const ', '').strip()
    return t.startswith('std::basic_string<') or t.startswith('std::__cxx11::basic_string<') or t in ('std::string',)


class Vec:
    """A sequence container (std::vector) of abstract objects."""

    def __init__(self, items):
        self.items = list(items)

    def __repr__(self):
        return 'Vec(%d)' % len(self.items)


def const(w, signed, n):
    lo, hi = rng(w, signed)
    m = n & ((1 << w) - 1)
    if signed and m >> (w - 1):
        m -= 1 << w
    return IV(w, signed, m, m, [(m >> i) & 1 for i in range(w)])


def bits_of_interval(w, lo, hi, name='V'):
    """Bit view of the analysed input over the class [lo, hi] (same sign): constant common prefix, symbolic rest."""
    m = (1 << w) - 1
    a, b = lo & m, hi & m
    d = a ^ b
    q = d.bit_length()          # bits >= q agree
    return [(name, i) if i < q else ((a >> i) & 1) for i in range(w)]


def interval_from_bits(bits, w, signed):
    if bits is None or any(b is None for b in bits):
        return None
    lo = sum((1 << i) for i, b in enumerate(bits) if b == 1)
    hi = sum((1 << i) for i, b in enumerate(bits) if b != 0)
    if signed:
        sb = bits[w - 1]
        if sb == 1:
            return lo - (1 << w), hi - (1 << w)
        if sb == 0:
            return lo, hi
        return None
    return lo, hi


class Moved:
    """Result of std::move(lvalue): the value plus where it came from (the source is nulled when the move is consumed)."""

    def __init__(self, lv, value):
        self.lv = lv
        self.value = value

    def __repr__(self):
        return 'Moved(%r)' % (self.value,)


class Obj:
    def __init__(self, cls, fields=None, name=None):
        self.cls = cls
        self.fields = fields or {}
        self.name = name or cls

    def __repr__(self):
        return '<%s>' % self.name


class Interp:
    def __init__(self, idx, hooks=None, max_iter=100):
        self.idx = idx
        self.events = []
        self.ub = []
        self.hooks = hooks
        self.max_iter = max_iter
        self.depth = 0
        self.moves = []
        self.null_derefs = []
        self.sym_range = {}
        self.pointer_model = False     # when set, std::string::data()/c_str() yield ('ptr', buffer, offset) values

    # -- helpers --------------------------------------------------------------------------------
    def consume(self, v, env=None):
        """Complete a move: the source of std::move(x) becomes null."""
        if isinstance(v, Moved):
            try:
                self.store(v.lv, None, env or {'locals': {}, 'this': None})
            except AnalysisBroken:
                pass
            self.moves.append(v.lv)
            return v.value
        return v

    def ub_event(self, kind, n):
        self.ub.append((kind, pos(n) if n is not None else '?'))

    def sym(self, name, w, signed, lo, hi, bits=None, src=None):
        """A named symbolic value with a registered range (lets affine results be re-bounded exactly)."""
        self.sym_range[name] = (lo, hi)
        return IV(w, signed, lo, hi, bits, src, ({name: 1}, 0))

    def make(self, w, signed, lo, hi, bits=None, n=None, what='arith', aff=None):
        tlo, thi = rng(w, signed)
        if aff is not None and aff[0] and all(k_ in self.sym_range for k_ in aff[0]):
            alo = ahi = aff[1]
            for k_, c_ in aff[0].items():
                l_, h_ = self.sym_range[k_]
                alo += c_ * (l_ if c_ > 0 else h_)
                ahi += c_ * (h_ if c_ > 0 else l_)
            lo, hi = max(lo, alo), min(hi, ahi)
        if aff is not None and not aff[0] and tlo <= aff[1] <= thi:
            return const(w, signed, aff[1])      # the symbolic parts cancel: exact constant
        if lo < tlo or hi > thi:
            m_ = 1 << w
            if not signed and aff is not None and (lo - tlo) // m_ == (hi - tlo) // m_:
                k_ = (lo - tlo) // m_
                aff = (aff[0], aff[1] - k_ * m_)     # uniform modular wrap of an unsigned value
            else:
                aff = None
            if signed:
                self.ub_event('signed-overflow:' + what, n)
            # wrap
            if hi - lo >= (1 << w):
                lo, hi = tlo, thi
            else:
                m = (1 << w) - 1
                a, b = lo & m, hi & m
                if signed:
                    a = a - (1 << w) if a >> (w - 1) else a
                    b = b - (1 << w) if b >> (w - 1) else b
                if a <= b:
                    lo, hi = a, b
                else:
                    lo, hi = tlo, thi
        if bits is not None:
            r = interval_from_bits(bits, w, signed)
            if r is not None:
                lo, hi = max(lo, r[0]), min(hi, r[1])
        return IV(w, signed, lo, hi, bits, None, aff)

    def truth(self, v, n=None):
        if isinstance(v, IV):
            if v.lo == 0 and v.hi == 0:
                return False
            if v.lo > 0 or v.hi < 0:
                return True
            if isinstance(v.src, tuple) and v.src[0] == 'undecided':
                raise NeedSplit(v.src[1], v.src[2])
            raise NeedSplit(None, 'truth of %r at %s' % (v, pos(n) if n else '?'))
        if isinstance(v, Obj):
            return True
        if v is None:
            return False
        if isinstance(v, tuple) and v and v[0] == 'tabptr':
            return True
        if isinstance(v, bool):
            return v
        raise AnalysisBroken('truth value of %r' % (v,))

    def convert(self, v, w, signed, n=None, explicit=False):
        if not isinstance(v, IV):
            return v
        if v.w == w and v.signed == signed:
            return v
        bits = None
        if v.bits is not None:
            if w <= v.w:
                bits = v.bits[:w]
            else:
                fill = v.bits[-1] if v.signed else 0
                bits = v.bits + [fill] * (w - v.w)
        tlo, thi = rng(w, signed)
        lo, hi = v.lo, v.hi
        if lo >= tlo and hi <= thi:
            r_ = IV(w, signed, lo, hi, bits, v.src, v.aff)
            r_.lbs = v.lbs
            return r_
        # out of range: modular conversion (well defined for unsigned targets, implementation-defined = two's complement for signed)
        m = (1 << w)
        aff2 = None
        if v.aff is not None and (lo - tlo) // m == (hi - tlo) // m:
            aff2 = (v.aff[0], v.aff[1] - ((lo - tlo) // m) * m)
        if hi - lo >= m:
            lo, hi = tlo, thi
        else:
            a, b = lo % m, hi % m
            if signed:
                a = a - m if a >> (w - 1) else a
                b = b - m if b >> (w - 1) else b
            if a <= b:
                lo, hi = a, b
            else:
                lo, hi = tlo, thi
        r = IV(w, signed, lo, hi, bits, v.src, aff2)
        if bits is not None:
            ib = interval_from_bits(bits, w, signed)
            if ib:
                r.lo, r.hi = max(r.lo, ib[0]), min(r.hi, ib[1])
        return r

    # -- statements -----------------------------------------------------------------------------
    def block(self, stmts, env):
        """A compound statement: its statements, then -- on every way out -- the destructors of the automatic objects of repository
        classes declared in it, in reverse order of declaration (RAII guards restore what they saved)."""
        declared = []
        try:
            for s in stmts:
                if s.get('kind') == 'DeclStmt':
                    for d in children(s):
                        if d.get('kind') == 'VarDecl' and '&' not in qt(d) and '*' not in qt(d):
                            declared.append(d)
                self.stmt(s, env)
        finally:
            for d in reversed(declared):
                o = env['locals'].get(d['id'])
                if isinstance(o, Obj) and o.cls in self.idx.records:
                    dt = next((m for m in self.idx.records[o.cls].methods if m.name.startswith('~') and m.body is not None), None)
                    if dt is not None and children(dt.body):
                        try:
                            self.stmt(dt.body, {'this': o, 'locals': {}})
                        except _Return:
                            pass

    def stmt(self, n, env):
        k = n.get('kind')
        if k is None or k == 'NullStmt':
            return
        ch = children(n)
        if k == 'CompoundStmt':
            self.block(ch, env)
        elif k == 'DeclStmt':
            for d in ch:
                if d['kind'] == 'VarDecl':
                    init = [c for c in children(d) if 'kind' in c]
                    ti = tinfo(d, self.idx)
                    if init:
                        v = self.expr(init[-1], env)
                        if '&' not in qt(d):
                            v = self.consume(v, env)
                        elif isinstance(v, Moved):
                            v = v.value
                        if ti and isinstance(v, IV):
                            v = self.convert(v, ti[0], ti[1], d)
                        env['locals'][d['id']] = v
                    else:
                        env['locals'][d['id']] = IV(ti[0], ti[1], *rng(*ti)) if ti else None
        elif k == 'IfStmt':
            i = 0
            if n.get('hasInit') or n.get('hasVar'):
                self.stmt(ch[0], env)
                i = 1
            if n.get('hasVar'):
                vd = [d for d in children(ch[0]) if d['kind'] == 'VarDecl'][0]
                if env['locals'].get(vd['id']) == ('global', 'nullopt'):
                    env['locals'][vd['id']] = None
                # the condition is the declared variable *converted to bool* (operator bool of an optional / smart pointer, a
                # pointer's null test): evaluate that expression, not the value of the variable
                if 'optional' in (qt(vd) + dqt(vd)):
                    c = env['locals'].get(vd['id']) is not None
                else:
                    c = self.truth(env['locals'][vd['id']], n)
            else:
                c = self.truth(self.expr(ch[i], env), ch[i])
            if c:
                self.stmt(ch[i + 1], env)
            elif len(ch) > i + 2:
                self.stmt(ch[i + 2], env)
        elif k == 'WhileStmt':
            for _ in range(self.max_iter):
                if not self.truth(self.expr(ch[0], env), ch[0]):
                    return
                try:
                    self.stmt(ch[1], env)
                except _Break:
                    return
                except _Continue:
                    pass
            raise LoopBudget('loop at %s exceeds %d abstract iterations' % (pos(n), self.max_iter))
        elif k == 'DoStmt':
            for _ in range(self.max_iter):
                try:
                    self.stmt(ch[0], env)
                except _Break:
                    return
                except _Continue:
                    pass
                if not self.truth(self.expr(ch[1], env), ch[1]):
                    return
            raise LoopBudget('loop at %s exceeds %d abstract iterations' % (pos(n), self.max_iter))
        elif k == 'ForStmt':
            init, _v, cond, inc, body = (n.get('inner', []) + [{}] * 5)[:5]
            if init and 'kind' in init:
                self.stmt(init, env)
            for _ in range(self.max_iter):
                if cond and 'kind' in cond and not self.truth(self.expr(cond, env), cond):
                    return
                try:
                    self.stmt(body, env)
                except _Break:
                    return
                except _Continue:
                    pass
                if inc and 'kind' in inc:
                    self.expr(inc, env)
            raise LoopBudget('loop at %s exceeds %d abstract iterations' % (pos(n), self.max_iter))
        elif k == 'CXXForRangeStmt':
            inner = n.get('inner', [])
            body = inner[-1]
            var = None
            rng_init = None
            for c in inner[:-1]:
                if c and c.get('kind') == 'DeclStmt':
                    for d in children(c):
                        if d['kind'] == 'VarDecl':
                            if d.get('name', '').startswith('__range'):
                                rng_init = [x for x in children(d) if 'kind' in x][-1]
                            elif not d.get('name', '').startswith('__'):
                                var = d
            if var is None or rng_init is None:
                raise AnalysisBroken('unsupported range-for at %s' % pos(n))
            seq = self.expr(rng_init, env)
            if isinstance(seq, tuple) and seq and seq[0] == 'str':
                seq = Vec([const(8, True, ord(ch_) if ord(ch_) < 128 else ord(ch_) - 256) for ch_ in seq[1]])      # the characters of a string
            if not isinstance(seq, Vec):
                raise AnalysisBroken('range-for over %r at %s' % (seq, pos(n)))
            for item in list(seq.items):
                env['locals'][var['id']] = item
                try:
                    self.stmt(body, env)
                except _Break:
                    break
                except _Continue:
                    continue
        elif k == 'SwitchStmt':
            v = self.expr(ch[0], env)
            if not (isinstance(v, IV) and v.concrete()):
                raise NeedSplit(None, 'switch on non-concrete value at %s' % pos(n))
            body = children(ch[1]) if ch[1]['kind'] == 'CompoundStmt' else [ch[1]]
            items = []

            def flat(c):
                if c['kind'] == 'CaseStmt':
                    cc = children(c)
                    items.append(('case', const_int(cc[0], self.idx)))
                    flat(cc[-1])
                elif c['kind'] == 'DefaultStmt':
                    items.append(('default', None))
                    flat(children(c)[-1])
                else:
                    items.append(('stmt', c))
            for c in body:
                flat(c)
            start = None
            for i, (t, val) in enumerate(items):
                if t == 'case' and val == v.lo:
                    start = i
                    break
            if start is None:
                for i, (t, val) in enumerate(items):
                    if t == 'default':
                        start = i
                        break
            if start is None:
                return
            try:
                for t, x in items[start:]:
                    if t == 'stmt':
                        self.stmt(x, env)
            except _Break:
                pass
        elif k == 'BreakStmt':
            raise _Break()
        elif k == 'ContinueStmt':
            raise _Continue()
        elif k == 'ReturnStmt':
            raise _Return(self.expr(ch[0], env) if ch else None)
        elif k == 'CXXTryStmt':
            self.stmt(ch[0], env)
        else:
            self.expr(n, env)

    # -- lvalues --------------------------------------------------------------------------------
    def lval(self, n, env):
        n = strip_noncast(n)
        k = n['kind']
        if k == 'DeclRefExpr':
            return ('local', n['referencedDecl']['id'], n)
        if k == 'MemberExpr':
            ch = children(n)
            b = strip_noncast(ch[0]) if ch else None
            if b is not None and b['kind'] == 'CXXThisExpr':
                return ('field', env['this'], n['name'], n)
            o = self.expr(ch[0], env)
            if isinstance(o, Obj):
                return ('field', o, n['name'], n)
            if isinstance(o, tuple) and o and o[0] == 'pair' and n.get('name') in ('first', 'second') and len(o) == 3:
                return ('val', o[1] if n['name'] == 'first' else o[2])
            raise AnalysisBroken('member access on %r at %s' % (o, pos(n)))
        if k in ('ImplicitCastExpr', 'CXXStaticCastExpr') and n.get('castKind') in ('NoOp', 'DerivedToBase', 'UncheckedDerivedToBase'):
            return self.lval(children(n)[0], env)
        if k == 'UnaryOperator' and n.get('opcode') == '*':
            o = self.expr(children(n)[0], env)
            if isinstance(o, Obj) and o.cls == '(errno)':
                return ('field', o, 'v', n)
            if isinstance(o, Obj):
                return ('obj', o)
            if isinstance(o, IV):
                # pointers to scalars are transparent in this engine (&x evaluates to the value of x)
                return ('val', o)
        if k == 'CXXMemberCallExpr':
            kind, name, did, obj = callee_of(n)
            f = self.idx.func_by_id.get(did) if did else None
            if f is not None and f.body is not None and '&' in f.type.split('(')[0] and obj is not None:
                # a getter returning a reference to a member: `T &get() { return member; }`
                st = children(f.body)
                if len(st) == 1 and st[0]['kind'] == 'ReturnStmt' and children(st[0]):
                    r = strip_noncast(children(st[0])[0])
                    while r['kind'] == 'ImplicitCastExpr' and r.get('castKind') in ('NoOp',):
                        r = strip_noncast(children(r)[0])
                    if r['kind'] == 'MemberExpr' and children(r) and strip_noncast(children(r)[0])['kind'] == 'CXXThisExpr':
                        o = self.expr(obj, env)
                        if isinstance(o, Moved):
                            o = o.value
                        if o is None:
                            self.null_derefs.append(pos(n))
                            raise Thrown('null pointer dereference')
                        if isinstance(o, Obj):
                            return ('field', o, r['name'], n)
        if k == 'CXXOperatorCallExpr' and callee_of(n)[1] == 'operator[]':
            a_ = call_args(n)
            if len(a_) == 2:
                c_ = self.expr(a_[0], env)
                if isinstance(c_, dict):
                    # std::map::operator[] used as an lvalue: the slot of the key
                    k_ = self.expr(a_[1], env)
                    k_ = k_[1] if isinstance(k_, tuple) and k_[:1] == ('str',) else (k_.lo if isinstance(k_, IV) and k_.concrete() else None)
                    if k_ is None:
                        raise NeedSplit(None, 'map key not concrete at %s' % pos(n))
                    return ('mapslot', c_, k_)
                if isinstance(c_, Vec):
                    i_ = self.expr(a_[1], env)
                    if not (isinstance(i_, IV) and i_.concrete()):
                        raise NeedSplit(None, 'vector index not concrete at %s' % pos(n))
                    if not 0 <= i_.lo < len(c_.items):
                        self.ub_event('vector-index-out-of-range', n)
                        raise Thrown('out-of-range vector access')
                    return ('vecslot', c_, i_.lo)
        if k in ('CXXOperatorCallExpr', 'CXXMemberCallExpr', 'CallExpr'):
            return ('val', self.call(n, env))
        if k == 'ArraySubscriptExpr':
            return ('val', self.expr(n, env))          # element of a built-in array, read-only use
        if k == 'ConditionalOperator':
            ch = children(n)
            c = self.truth(self.expr(ch[0], env), ch[0])
            return self.lval(ch[1] if c else ch[2], env)
        if k in ('BinaryOperator', 'CompoundAssignOperator') and n.get('opcode', '').endswith('=') and n.get('opcode') not in ('==', '!=', '<=', '>='):
            self.expr(n, env)
            return self.lval(children(n)[0], env)
        if k == 'UnaryOperator' and n.get('opcode') in ('++', '--') and not n.get('isPostfix'):
            self.expr(n, env)
            return self.lval(children(n)[0], env)
        raise AnalysisBroken('unsupported lvalue %s at %s' % (k, pos(n)))

    def load(self, lv, env):
        if lv[0] == 'val':
            return lv[1]
        if lv[0] == 'local':
            if lv[1] not in env['locals']:
                cv = const_int(lv[2], self.idx)
                if cv is not None:
                    ti = tinfo(lv[2], self.idx) or (32, True)
                    return const(ti[0], ti[1], cv)
                gd = self.idx.by_id.get(lv[1])
                gi = [c_ for c_ in children(gd) if 'kind' in c_] if isinstance(gd, dict) and gd.get('kind') == 'VarDecl' else []
                if gi and ('const' in qt(gd) or gd.get('constexpr')):
                    # a constant table / value at namespace, class or function-static scope: its initialiser
                    memo = self.__dict__.setdefault('_const_globals', {})
                    if lv[1] not in memo:
                        memo[lv[1]] = self.expr(gi[-1], {'this': None, 'locals': {}})
                    return memo[lv[1]]
                raise AnalysisBroken('read of unbound variable %s at %s' % (lv[2].get('referencedDecl', {}).get('name'), pos(lv[2])))
            return env['locals'][lv[1]]
        if lv[0] == 'field':
            o, name = lv[1], lv[2]
            if o is None or name not in o.fields:
                raise AnalysisBroken('read of unmodelled field %s of %r at %s' % (name, o, pos(lv[3])))
            return o.fields[name]
        if lv[0] == 'obj':
            return lv[1]
        if lv[0] == 'mapslot':
            return lv[1].setdefault(lv[2], None)
        if lv[0] == 'vecslot':
            return lv[1].items[lv[2]]
        raise AnalysisBroken('load %r' % (lv,))

    def store(self, lv, v, env):
        if lv[0] == 'local':
            env['locals'][lv[1]] = v
        elif lv[0] == 'field':
            lv[1].fields[lv[2]] = v
        elif lv[0] == 'mapslot':
            lv[1][lv[2]] = v
        elif lv[0] == 'vecslot':
            lv[1].items[lv[2]] = v
        else:
            raise AnalysisBroken('store %r' % (lv,))

    # -- expressions ----------------------------------------------------------------------------
    def expr(self, n, env):
        k = n['kind']
        ch = children(n)
        if k == 'CXXDefaultArgExpr' and not ch:
            return DEFAULT_ARG          # the callee's default argument: resolved when the parameters are bound
        if k in ('ParenExpr', 'ExprWithCleanups', 'MaterializeTemporaryExpr', 'CXXBindTemporaryExpr', 'CXXDefaultArgExpr'):
            return self.expr(ch[0], env) if ch else None
        if k == 'ConstantExpr':
            ti = tinfo(n, self.idx)
            if 'value' in n and ti:
                return const(ti[0], ti[1], int(n['value']))
            return self.expr(ch[0], env)
        if k == 'IntegerLiteral':
            ti = tinfo(n, self.idx) or (32, True)
            return const(ti[0], ti[1], int(n['value']))
        if k == 'CharacterLiteral':
            return const(8, True, int(n['value']))
        if k == 'CXXBoolLiteralExpr':
            return const(1, False, 1 if n['value'] else 0)
        if k == 'CXXNullPtrLiteralExpr':
            return None
        if k == 'CXXThisExpr':
            return env['this']
        if k == 'StringLiteral':
            from .cast import string_lit
            return ('str', string_lit(n))
        if k in ('ImplicitCastExpr', 'CStyleCastExpr', 'CXXStaticCastExpr', 'CXXFunctionalCastExpr', 'CXXReinterpretCastExpr', 'CXXDynamicCastExpr'):
            ck = n.get('castKind')
            sub = ch[-1] if k != 'CXXFunctionalCastExpr' else ch[0]
            if ck == 'LValueToRValue':
                return self.load(self.lval(sub, env), env)
            if ck in ('IntegralCast', 'BooleanToSignedIntegral'):
                v = self.expr(sub, env)
                ti = tinfo(n, self.idx)
                if ti is None:
                    raise AnalysisBroken('integral cast to unknown type %s at %s' % (qt(n), pos(n)))
                return self.convert(v, ti[0], ti[1], n)
            if ck == 'IntegralToBoolean':
                v = self.expr(sub, env)
                return const(1, False, 1 if self.truth(v, n) else 0)
            if ck == 'PointerToBoolean':
                v = self.expr(sub, env)
                return const(1, False, 0 if v is None else 1)
            if ck == 'Dynamic':
                v = self.expr(sub, env)
                tgt = qt(n).replace('*', '').replace('const', '').strip()
                if isinstance(v, Obj):
                    cls = self.idx._resolve_record_name(tgt, v.cls) or tgt
                    return v if self.idx.derives_from(v.cls, cls) else None
                return v
            if ck in ('NoOp', 'ArrayToPointerDecay', 'FunctionToPointerDecay', 'DerivedToBase', 'UncheckedDerivedToBase', 'BitCast',
                      'ConstructorConversion', 'UserDefinedConversion', 'NullToPointer', 'ToVoid', 'BaseToDerived'):
                return self.expr(sub, env)
            raise AnalysisBroken('unsupported cast %s at %s' % (ck, pos(n)))
        if k == 'DeclRefExpr':
            r = n.get('referencedDecl', {})
            if r.get('kind') == 'EnumConstantDecl':
                ec = self.idx.enum_consts.get(r.get('id'))
                if ec is None:
                    raise AnalysisBroken('unknown enumerator ' + str(r.get('name')))
                return const(32, True, ec[2])
            if r.get('kind') in ('FunctionDecl', 'CXXMethodDecl'):
                return ('func', r.get('id'), r.get('name'))
            if r.get('id') in env['locals']:
                return env['locals'][r['id']]
            cv = const_int(n, self.idx)
            if cv is not None:
                ti = tinfo(n, self.idx) or (32, True)
                return const(ti[0], ti[1], cv)
            if r.get('kind') == 'VarDecl' and r.get('id') not in self.idx.by_id:
                return ('global', r.get('name'))       # an object outside the repository (std::cout, std::cerr, ...)
            gd = self.idx.by_id.get(r.get('id'))
            gi = [c_ for c_ in children(gd) if 'kind' in c_] if isinstance(gd, dict) and gd.get('kind') == 'VarDecl' else []
            if gi and ('const' in qt(gd) or gd.get('constexpr')):
                # a constant table / value at namespace, class or function-static scope: its initialiser
                memo = self.__dict__.setdefault('_const_globals', {})
                if r['id'] not in memo:
                    memo[r['id']] = self.expr(gi[-1], {'this': None, 'locals': {}})
                return memo[r['id']]
            raise AnalysisBroken('reference to unbound %s %s at %s' % (r.get('kind'), r.get('name'), pos(n)))
        if k == 'MemberExpr':
            return self.load(self.lval(n, env), env)
        if k == 'UnaryOperator':
            op = n['opcode']
            if op in ('++', '--'):
                lv = self.lval(ch[0], env)
                v = self.load(lv, env)
                one = const(v.w, v.signed, 1)
                nv = self.arith('+' if op == '++' else '-', v, one, n)
                self.store(lv, nv, env)
                return v if n.get('isPostfix') else nv
            v = self.expr(ch[0], env)
            if op == '!':
                return const(1, False, 0 if self.truth(v, n) else 1)
            if op == '-':
                return self.negate(v, n)
            if op == '+':
                return v
            if op == '~':
                bits = [(1 - b) if b in (0, 1) else None for b in v.bits] if v.bits else None
                return self.make(v.w, v.signed, -v.hi - 1 if v.signed else ((1 << v.w) - 1 - v.hi), -v.lo - 1 if v.signed else ((1 << v.w) - 1 - v.lo), bits, n)
            if op == '*':
                return v
            if op == '&':
                return v
            raise AnalysisBroken('unsupported unary %s at %s' % (op, pos(n)))
        if k == 'ConditionalOperator':
            c = self.truth(self.expr(ch[0], env), ch[0])
            return self.expr(ch[1] if c else ch[2], env)
        if k == 'BinaryOperator':
            op = n['opcode']
            if op == '=':
                v = self.consume(self.expr(ch[1], env), env)
                lv = self.lval(ch[0], env)
                ti = tinfo(ch[0], self.idx)
                if ti and isinstance(v, IV):
                    v = self.convert(v, ti[0], ti[1], n)
                self.store(lv, v, env)
                return v
            if op == ',':
                self.expr(ch[0], env)
                return self.expr(ch[1], env)
            if op == '&&':
                a = self.truth(self.expr(ch[0], env), ch[0])
                if not a:
                    return const(1, False, 0)
                return const(1, False, 1 if self.truth(self.expr(ch[1], env), ch[1]) else 0)
            if op == '||':
                a = self.truth(self.expr(ch[0], env), ch[0])
                if a:
                    return const(1, False, 1)
                return const(1, False, 1 if self.truth(self.expr(ch[1], env), ch[1]) else 0)
            a = self.expr(ch[0], env)
            b = self.expr(ch[1], env)
            # pointers into a constant character table (the result of strchr): null tests and the distance from the table's start
            pa = isinstance(a, tuple) and a and a[0] == 'tabptr'
            pb = isinstance(b, tuple) and b and b[0] == 'tabptr'
            if pa or pb:
                def is_null(x):
                    return x is None or (isinstance(x, IV) and x.concrete() and x.lo == 0)
                if op in ('==', '!=') and (is_null(a) or is_null(b)):
                    return const(1, False, 1 if op == '!=' else 0)
                if op == '-' and pa and isinstance(b, tuple) and b[0] == 'str' and b[1] == a[1]:
                    return const(64, True, a[2])
                if op == '-' and pa and pb and a[1] == b[1]:
                    return const(64, True, a[2] - b[2])
                raise AnalysisBroken('unsupported arithmetic %s on a pointer into a character table at %s' % (op, pos(n)))
            return self.binop(op, a, b, n)
        if k == 'CompoundAssignOperator':
            op = n['opcode'][:-1]
            lv = self.lval(ch[0], env)
            a = self.load(lv, env)
            b = self.expr(ch[1], env)
            ct = tinfo((n.get('computeLHSType') or {}).get('qualType'), self.idx) or (a.w, a.signed)
            r = self.binop(op, self.convert(a, ct[0], ct[1], n), b if op in ('<<', '>>') else self.convert(b, ct[0], ct[1], n), n)
            r = self.convert(r, a.w, a.signed, n)
            self.store(lv, r, env)
            return r
        if k == 'InitListExpr':
            return Vec([self.expr(c, env) for c in ch if c.get('kind') != 'array_filler'])
        if k == 'ArraySubscriptExpr':
            base = self.expr(ch[0], env)
            iv = self.expr(ch[1], env)
            if isinstance(base, Vec):
                if not (isinstance(iv, IV) and iv.concrete()):
                    raise NeedSplit(None, 'array index not concrete at %s' % pos(n))
                if not 0 <= iv.lo < len(base.items):
                    self.ub_event('array-index-out-of-range', n)
                    raise Thrown('out-of-range array access')
                return base.items[iv.lo]
            raise AnalysisBroken('subscript of %r at %s' % (base, pos(n)))
        if k in ('CallExpr', 'CXXMemberCallExpr', 'CXXOperatorCallExpr'):
            return self.call(n, env)
        if k == 'CXXThrowExpr':
            raise Thrown(qt(ch[0]) if ch else 'rethrow')
        if k in ('CXXConstructExpr', 'CXXTemporaryObjectExpr'):
            real = [c for c in ch if c['kind'] != 'CXXDefaultArgExpr']
            # an object of a class of the repository: build it through its user-provided constructor
            import re as _re
            tq = _re.sub(r'^(const |class |struct )+', '', qt(n)).strip()
            rcls = tq if tq in self.idx.records else None
            if rcls is None and tq and '<' not in tq and '::' not in tq and not tq.startswith('std'):
                rcls = self.idx._resolve_record_name(tq, env['this'].cls if isinstance(env.get('this'), Obj) else '')
            if rcls is not None and not (len(real) == 1 and rcls.split('::')[-1] in (qt(real[0]) + dqt(real[0]))):
                user = [c for c in self.idx.records[rcls].ctors if not c.node.get('isImplicit') and len(c.params) >= len(real)]
                if user or not real:
                    try:
                        return self.construct(rcls, [self.expr(a, env) for a in real])
                    except AnalysisBroken:
                        if real:
                            raise
            if len(real) == 1 and _re.match(r'^(const )?std::vector<', dqt(n) or qt(n)) and 'vector' not in (qt(real[0]) + dqt(real[0])):
                cnt = self.expr(real[0], env)
                if isinstance(cnt, IV) and cnt.concrete() and 0 <= cnt.lo <= 1 << 20:
                    return Vec([const(8, True, 0) for _ in range(cnt.lo)])      # vector<T>(n): n value-initialised elements
                raise AnalysisBroken('vector of non-concrete size at %s' % pos(n))
            if len(real) == 1:
                return self.expr(real[0], env)
            if len(real) == 2 and _is_string_type(dqt(n)):
                a, b = self.expr(real[0], env), self.expr(real[1], env)
                if isinstance(a, IV) and a.concrete() and isinstance(b, IV) and b.concrete():
                    return ('str', chr(b.lo & 0xFF) * a.lo)       # std::string(count, ch)
            if not real and _is_string_type(dqt(n)):
                return ('str', '')
            if not real and _re.match(r'^(const )?std::vector<', dqt(n) or qt(n)):
                return Vec([])
            if len(real) == 1 and False:
                pass
            return ('temp', qt(n))
        if k == 'LambdaExpr':
            # a closure: called through operator() below; captures share the enclosing environment (the code base only uses
            # capture-less helpers and by-reference captures of locals)
            return Obj('(lambda)', {'node': n, 'env': env}, 'lambda')
        if k == 'UnaryExprOrTypeTraitExpr':
            at = (n.get('argType') or {}).get('qualType')
            ti = tinfo(at, self.idx) if at else None
            if ti:
                return const(64, False, ti[0] // 8)
            if n.get('name') == 'sizeof':
                # sizeof(expression) / sizeof(array type): element size x constant extents
                import re as _re
                t_ = at or ((children(n)[0].get('type') or {}).get('qualType') if children(n) else None) or ''
                m_ = _re.match(r'^(.*?)((?:\[\d+\])+)$', t_.strip())
                if m_:
                    ti = tinfo(m_.group(1).strip(), self.idx)
                    if ti:
                        tot = ti[0] // 8
                        for e_ in _re.findall(r'\[(\d+)\]', m_.group(2)):
                            tot *= int(e_)
                        return const(64, False, tot)
                ti = tinfo(t_, self.idx) if t_ else None
                if ti:
                    return const(64, False, ti[0] // 8)
        raise AnalysisBroken('unsupported expression %s at %s' % (k, pos(n)))

    def negate(self, v, n):
        if v.signed and v.lo == rng(v.w, True)[0]:
            if not v.concrete():
                raise NeedSplit(('<=', v.lo) if v.src == 'input' else None, 'negation of a class containing INT_MIN')
            self.ub_event('negate-int-min', n)
            return v
        if v.signed:
            aff = ({k_: -c_ for k_, c_ in v.aff[0].items()}, -v.aff[1]) if v.aff is not None else None
            return self.make(v.w, True, -v.hi, -v.lo, None, n, 'negate', aff)
        m = 1 << v.w
        if v.lo == 0 and v.hi == 0:
            return v
        if v.lo > 0:
            aff = None
            if v.aff is not None:
                aff = ({k_: -c_ for k_, c_ in v.aff[0].items()}, m - v.aff[1])
            return IV(v.w, False, m - v.hi, m - v.lo, None, None, aff)
        return IV(v.w, False, 0, m - 1)

    def _aff_hint(self, a, b, op):
        """Split point for the analysed input when `a op b` compares (input*(+-1) + k) with a constant."""
        d = aff_add(a.aff, b.aff, -1) if (a.aff is not None and b.aff is not None) else None
        if d is None or len(d[0]) != 1:
            return None
        (sym, c), = d[0].items()
        if c not in (1, -1):
            return None
        # a - b = c*sym + k ; boundary where a - b crosses 0 (or 1 for strict forms): sym around -k/c
        return ('sym', sym, (-d[1]) // c if c == 1 else d[1])

    def usual(self, a, b):
        """Usual arithmetic conversions (int promotion + common type)."""
        def promo(x):
            if x.w < 32:
                return self.convert(x, 32, True)
            return x
        a, b = promo(a), promo(b)
        w = max(a.w, b.w)
        if a.w == b.w:
            signed = a.signed and b.signed
        else:
            big = a if a.w > b.w else b
            signed = big.signed
        return self.convert(a, w, signed), self.convert(b, w, signed), w, signed

    def arith(self, op, a, b, n):
        a, b, w, signed = self.usual(a, b)
        if op == '+':
            return self.make(w, signed, a.lo + b.lo, a.hi + b.hi, bits_add(a.bits, b.bits, w), n, 'add', aff_add(a.aff, b.aff))
        if op == '-':
            return self.make(w, signed, a.lo - b.hi, a.hi - b.lo, bits_add(a.bits, b.bits, w, True), n, 'sub', aff_add(a.aff, b.aff, -1))
        if op == '*':
            c = [a.lo * b.lo, a.lo * b.hi, a.hi * b.lo, a.hi * b.hi]
            return self.make(w, signed, min(c), max(c), None, n, 'mul')
        raise AnalysisBroken('arith ' + op)

    def binop(self, op, a, b, n):
        if isinstance(a, tuple) and a[:1] == ('ptr',) and isinstance(b, IV) and op in ('+', '-'):
            if not b.concrete():
                raise NeedSplit(None, 'pointer offset not concrete at %s' % pos(n))
            return ('ptr', a[1], a[2] + (b.lo if op == '+' else -b.lo))
        if not (isinstance(a, IV) and isinstance(b, IV)):
            if op in ('==', '!='):
                eq = (a is b) or (a == b)
                return const(1, False, int(eq if op == '==' else not eq))
            raise AnalysisBroken('binary %s on %r, %r at %s' % (op, a, b, pos(n)))
        if op in ('+', '-', '*'):
            return self.arith(op, a, b, n)
        if op in ('<', '<=', '>', '>=', '==', '!='):
            a2, b2, w, signed = self.usual(a, b)
            res = None
            if op == '<':
                res = True if a2.hi < b2.lo else False if a2.lo >= b2.hi else None
            elif op == '<=':
                res = True if a2.hi <= b2.lo else False if a2.lo > b2.hi else None
            elif op == '>':
                res = True if a2.lo > b2.hi else False if a2.hi <= b2.lo else None
            elif op == '>=':
                res = True if a2.lo >= b2.hi else False if a2.hi < b2.lo else None
            elif op == '==':
                res = True if (a2.concrete() and b2.concrete() and a2.lo == b2.lo) else False if (a2.hi < b2.lo or a2.lo > b2.hi) else None
            elif op == '!=':
                res = False if (a2.concrete() and b2.concrete() and a2.lo == b2.lo) else True if (a2.hi < b2.lo or a2.lo > b2.hi) else None
            if res is None and a2.aff is not None and b2.aff is not None:
                d_ = aff_add(a2.aff, b2.aff, -1)
                if not d_[0]:
                    # same symbolic part: the difference is an exact constant
                    c_ = d_[1]
                    res = {'<': c_ < 0, '<=': c_ <= 0, '>': c_ > 0, '>=': c_ >= 0, '==': c_ == 0, '!=': c_ != 0}[op]
            if res is None:
                at = None
                if a.src == 'input' and b.concrete():
                    at = (op, b.lo)
                else:
                    at = self._aff_hint(a2, b2, op)
                r = IV(1, False, 0, 1, [None], None, None)
                r.src = ('undecided', at, '%r %s %r at %s' % (a, op, b, pos(n)))
                return r
            return const(1, False, int(res))
        if op in ('<<', '>>'):
            a = self.convert(a, 32, True) if a.w < 32 else a
            if not b.concrete():
                raise NeedSplit(None, 'shift by non-concrete amount %r at %s' % (b, pos(n)))
            k = b.lo
            if k < 0 or k >= a.w:
                self.ub_event('shift-out-of-range', n)
                k = k % a.w
            if op == '>>':
                bits = None
                if a.bits is not None:
                    fill = a.bits[-1] if a.signed else 0
                    bits = a.bits[k:] + [fill] * k
                aff = None
                if a.aff is not None and all(c % (1 << k) == 0 for c in a.aff[0].values()) and a.aff[1] % (1 << k) == 0:
                    aff = ({s_: c >> k for s_, c in a.aff[0].items()}, a.aff[1] >> k)
                return self.make(a.w, a.signed, a.lo >> k, a.hi >> k, bits, n, 'shr', aff)
            bits = ([0] * k + a.bits[:a.w - k]) if a.bits is not None else None
            if a.signed and (a.lo < 0):
                # left shift of a negative value: UB before C++20; result as two's complement
                pass
            lo, hi = a.lo << k, a.hi << k
            tlo, thi = rng(a.w, a.signed)
            if lo < tlo or hi > thi:
                if bits is not None and interval_from_bits(bits, a.w, a.signed):
                    lo, hi = interval_from_bits(bits, a.w, a.signed)
                else:
                    lo, hi = tlo, thi
            return IV(a.w, a.signed, lo, hi, bits)
        if op in ('&', '|', '^'):
            a2, b2, w, signed = self.usual(a, b)
            bits = None
            if a2.bits is not None and b2.bits is not None:
                bits = []
                for p, q in zip(a2.bits, b2.bits):
                    if op == '&':
                        r = 0 if (p == 0 or q == 0) else q if p == 1 else p if q == 1 else (p if p == q else None)
                    elif op == '|':
                        r = 1 if (p == 1 or q == 1) else q if p == 0 else p if q == 0 else (p if p == q else None)
                    else:
                        r = q if p == 0 else p if q == 0 else (0 if p == q and p is not None else (1 - q if p == 1 and q in (0, 1) else None))
                    bits.append(r)
            elif op == '&' and b2.concrete() and b2.lo >= 0:
                bits = [None if (b2.lo >> i) & 1 else 0 for i in range(w)]
            elif op == '&' and a2.concrete() and a2.lo >= 0:
                bits = [None if (a2.lo >> i) & 1 else 0 for i in range(w)]
            tlo, thi = rng(w, signed)
            lo, hi = tlo, thi
            if op == '&':
                for x in (a2, b2):
                    if x.lo >= 0:
                        lo, hi = 0, min(hi, x.hi) if hi != thi or True else x.hi
                if a2.lo >= 0 or b2.lo >= 0:
                    lo = 0
                    hi = min([x.hi for x in (a2, b2) if x.lo >= 0])
            elif op == '|' and a2.lo >= 0 and b2.lo >= 0:
                lo = max(a2.lo, b2.lo)
                hi = (1 << max(a2.hi.bit_length(), b2.hi.bit_length())) - 1
            if bits is not None and all(x is not None for x in bits):
                r = interval_from_bits(bits, w, signed)
                if r:
                    lo, hi = r
            aff = None
            if op == '&':
                # x & ~(2^k - 1) with known low k bits of x  ==  x - (x mod 2^k)
                for x_, m_ in ((a2, b2), (b2, a2)):
                    if m_.concrete() and x_.aff is not None and x_.bits is not None:
                        mv = m_.lo & ((1 << w) - 1)
                        inv = (~mv) & ((1 << w) - 1)
                        def kb(i):
                            if x_.bits[i] in (0, 1):
                                return x_.bits[i]
                            if x_.lo >= 0 and (1 << i) > x_.hi:
                                return 0
                            return None
                        cleared = [i for i in range(w) if (inv >> i) & 1]
                        vals_ = [kb(i) for i in cleared]
                        if cleared and all(v_ is not None for v_ in vals_):
                            # value of the cleared bits of x (the sign bit of a signed operand weighs -2^(w-1))
                            lowv = sum((-(v_ << i) if (signed and i == w - 1) else (v_ << i)) for i, v_ in zip(cleared, vals_))
                            aff = (x_.aff[0], x_.aff[1] - lowv)
                            lo, hi = x_.lo - lowv, x_.hi - lowv
            return IV(w, signed, lo, hi, bits, None, aff)
        if op in ('/', '%'):
            a2, b2, w, signed = self.usual(a, b)
            if b2.concrete() and b2.lo == 0:
                # [expr.mul]/4: undefined (SIGFPE on the targets this code base runs on)
                self.ub_event("division by zero", n)
                return IV(w, signed, *rng(w, signed))
            if b2.lo <= 0 <= b2.hi:
                raise NeedSplit(n, 'divisor %r may be zero' % (b2,))
            if b2.concrete() and b2.lo > 0 and a2.lo >= 0:
                d = b2.lo
                if d & (d - 1) == 0 and not a2.concrete():
                    # non-negative dividend, power-of-two divisor: the same value as the mask / shift form, which keeps bit views
                    if op == '%':
                        return self.binop('&', a2, const(w, signed, d - 1), n)
                    return self.binop('>>', a2, const(w, signed, d.bit_length() - 1), n)
                if op == '/':
                    return IV(w, signed, a2.lo // b2.lo, a2.hi // b2.lo)
                if a2.concrete():
                    return const(w, signed, a2.lo % b2.lo)
                return IV(w, signed, 0, b2.lo - 1)
            raise AnalysisBroken('unsupported division at %s' % pos(n))
        raise AnalysisBroken('unsupported binary operator %s at %s' % (op, pos(n)))

    # -- calls ----------------------------------------------------------------------------------
    def call(self, n, env):
        kind, name, did, obj = callee_of(n)
        args = call_args(n)
        if self.hooks is not None:
            r = self.hooks(self, n, kind, name, did, obj, args, env)
            if r is not NotImplemented:
                return r
        if kind == 'function' and name in ('isprint', 'isspace', 'isalpha', 'isalnum', 'isdigit', 'isxdigit', 'isupper', 'islower', 'ispunct',
                                           'isgraph', 'iscntrl', 'toupper', 'tolower') and len(args) == 1:
            # <cctype>: the argument must be representable as unsigned char or equal EOF, otherwise the behaviour is undefined
            # (glibc indexes a table with it: a strongly negative value is a wild read)
            v = self.expr(args[0], env)
            if isinstance(v, IV) and (v.lo < -1 or v.hi > 255):
                self.ub_event('ctype-argument-out-of-range(%s)' % name, n)
                return const(32, True, 0)
            if isinstance(v, IV) and v.concrete():
                ch_ = chr(v.lo) if 0 <= v.lo < 128 else ''
                tbl = {'isprint': ch_.isprintable() and ch_ != '', 'isspace': ch_ in ' \t\n\r\v\f' and ch_ != '', 'isalpha': ch_.isalpha(), 'isalnum': ch_.isalnum(),
                       'isdigit': ch_.isdigit(), 'isxdigit': ch_ in '0123456789abcdefABCDEF' and ch_ != '', 'isupper': ch_.isupper(), 'islower': ch_.islower(),
                       'ispunct': ch_ != '' and ch_.isprintable() and not ch_.isalnum() and ch_ != ' ', 'isgraph': ch_ != '' and ch_.isprintable() and ch_ != ' ',
                       'iscntrl': ch_ != '' and not ch_.isprintable()}
                if name in tbl:
                    return const(32, True, 1 if tbl[name] else 0)
                return const(32, True, ord(ch_.upper() if name == 'toupper' else ch_.lower()) if ch_ else v.lo)
            raise NeedSplit(None, 'character class of a non-concrete value at %s' % pos(n))
        if kind == 'function' and name == '__errno_location' and not args:
            # errno: one int cell per interpreter (library calls that fail are modelled by the client hooks, which may set it)
            if not hasattr(self, 'errno_cell'):
                self.errno_cell = Obj('(errno)', {'v': const(32, True, 0)}, 'errno')
            return self.errno_cell
        if name in ('max', 'min', 'lowest') and not args and n['kind'] == 'CallExpr' and (did is None or did not in self.idx.func_by_id):
            # static std::numeric_limits<T>::max() / min(): T is the type of the call
            ti = tinfo(n, self.idx)
            if ti:
                lo_, hi_ = rng(ti[0], ti[1])
                return const(ti[0], ti[1], hi_ if name == 'max' else lo_)
        if kind == 'function' and name == 'swap' and len(args) == 2:
            la, lb = self.lval(args[0], env), self.lval(args[1], env)
            va, vb = self.load(la, env), self.load(lb, env)
            self.store(la, vb, env)
            self.store(lb, va, env)
            return None
        if kind == 'function' and name in ('min', 'max') and len(args) == 2:
            a, b = self.expr(args[0], env), self.expr(args[1], env)
            if isinstance(a, IV) and isinstance(b, IV):
                ti = tinfo(n, self.idx)
                if ti:
                    a, b = self.convert(a, ti[0], ti[1], n), self.convert(b, ti[0], ti[1], n)
                if a.hi <= b.lo:
                    return a if name == 'min' else b
                if b.hi <= a.lo:
                    return b if name == 'min' else a
                src = a if a.src == 'input' else b
                other = b if src is a else a
                raise NeedSplit(('<=', other.lo) if (src.src == 'input' and other.concrete()) else None,
                                'std::%s of overlapping classes %r, %r at %s' % (name, a, b, pos(n)))
        if kind == 'function' and name in ('move', 'forward') and len(args) == 1:
            try:
                lv = self.lval(args[0], env)
            except AnalysisBroken:
                return self.expr(args[0], env)
            if lv[0] == 'val':
                return lv[1]
            return Moved(lv, self.load(lv, env))
        if n['kind'] == 'CXXOperatorCallExpr' and name == 'operator()' and args:
            fo = self.expr(args[0], env)
            if isinstance(fo, Obj) and fo.cls == '(lambda)':
                ln = fo.fields['node']
                meth = next((m_ for r_ in walk(ln) if r_.get('kind') == 'CXXRecordDecl' for m_ in children(r_)
                             if m_.get('kind') == 'CXXMethodDecl' and m_.get('name') == 'operator()'), None)
                body = next((c_ for c_ in reversed(children(ln)) if c_.get('kind') == 'CompoundStmt'), None)
                if meth is None or body is None:
                    raise AnalysisBroken('lambda without a body at %s' % pos(n))
                prms = [c_ for c_ in children(meth) if c_.get('kind') == 'ParmVarDecl']
                vals = [self.expr(a_, env) for a_ in args[1:]]
                env2 = {'this': fo.fields['env'].get('this'), 'locals': dict(fo.fields['env'].get('locals', {}))}
                for p_, v_ in zip(prms, vals):
                    ti_ = tinfo(p_, self.idx)
                    env2['locals'][p_['id']] = self.convert(v_, ti_[0], ti_[1], n) if ti_ and isinstance(v_, IV) else v_
                try:
                    self.stmt(body, env2)
                except _Return as r_:
                    return r_.v
                return None
        if n['kind'] == 'CXXOperatorCallExpr':
            if name in ('operator->', 'operator*'):
                v = self.expr(args[0], env)
                if isinstance(v, Moved):
                    v = v.value
                if v is None and 'unique_ptr' in (dqt(args[0]) + qt(args[0])):
                    self.null_derefs.append(pos(n))
                    raise Thrown('null pointer dereference')
                return v
            if name == 'operator=' and len(args) == 2:
                v = self.consume(self.expr(args[1], env), env)
                lv = self.lval(args[0], env)
                self.store(lv, v, env)
                return v
            if name == 'operator bool' and args:
                v = self.expr(args[0], env)
                return const(1, False, 0 if v is None else 1)
            if name == 'operator[]':
                c = self.expr(args[0], env)
                i = self.expr(args[1], env)
                if isinstance(c, Vec):
                    if not (isinstance(i, IV) and i.concrete()):
                        raise NeedSplit(None, 'vector index not concrete at %s' % pos(n))
                    if not 0 <= i.lo < len(c.items):
                        self.ub_event('vector-index-out-of-range', n)
                        raise Thrown('out-of-range vector access')
                    return c.items[i.lo]
                if isinstance(c, tuple) and c and c[0] == 'str':
                    if not (isinstance(i, IV) and i.concrete()):
                        raise NeedSplit(None, 'string index not concrete at %s' % pos(n))
                    if not 0 <= i.lo <= len(c[1]):
                        self.ub_event('string-index-out-of-range', n)
                        raise Thrown('out-of-range string access')
                    ch_ = ord(c[1][i.lo]) if i.lo < len(c[1]) else 0
                    return const(8, True, ch_)
                if isinstance(c, dict):
                    key = i[1] if isinstance(i, tuple) else i
                    if key not in c:
                        # std::map::operator[] inserts a value-initialised element: a null pointer, an empty string, a zero
                        mt = dqt(args[0]) + ' ' + qt(args[0])
                        import re as _re2
                        mm = _re2.search(r'map<\s*[^,]+,\s*([^,>]+(?:<[^>]*>)?)', mt)
                        mapped = (mm.group(1) if mm else '').strip()
                        if 'basic_string' in mapped or mapped in ('std::string', 'string'):
                            c[key] = ('str', '')
                        elif mapped in ('int', 'unsigned int', 'unsigned', 'long', 'unsigned long', 'bool', 'size_t'):
                            c[key] = const(32, mapped in ('int', 'long'), 0)
                        else:
                            c[key] = None
                    return c[key]
                raise AnalysisBroken('operator[] on %r at %s' % (c, pos(n)))
            if name in ('operator==', 'operator!='):
                a, b = self.expr(args[0], env), self.expr(args[1], env)
                eq = (a is b) if (isinstance(a, Obj) or isinstance(b, Obj)) else (a == b)
                return const(1, False, int(eq if name == 'operator==' else not eq))
            if name == 'operator+':
                a, b = self.expr(args[0], env), self.expr(args[1], env)
                return str_cat(a, b)
            if name == 'operator+=':
                lv = self.lval(args[0], env)
                v = str_cat(self.load(lv, env), self.expr(args[1], env))
                self.store(lv, v, env)
                return v
            if name == 'operator%':
                a, b = self.expr(args[0], env), self.expr(args[1], env)
                if isinstance(a, tuple) and a[0] == 'str':
                    a = ('fmt', a[1], [])
                if isinstance(a, tuple) and a[0] == 'fmt':
                    return ('fmt', a[1], a[2] + [b])
                raise AnalysisBroken('operator%% on %r at %s' % (a, pos(n)))
            if name == 'operator<<':
                a, b = self.expr(args[0], env), self.expr(args[1], env)
                self.events.append(('print', a, b))
                return a
            raise AnalysisBroken('unsupported operator call %s at %s' % (name, pos(n)))
        if kind == 'function':
            if name in ('strlen', 'strcmp', 'strncmp'):
                vs = [self.expr(a, env) for a in args]
                strs = [(v[1] if isinstance(v, tuple) and v[0] == 'str' else ''.join(v[1][v[2]:]) if isinstance(v, tuple) and v[0] == 'ptr' else None) for v in vs[:2 if name != 'strlen' else 1]]
                if all(x is not None for x in strs):
                    if name == 'strlen':
                        return const(64, False, len(strs[0]))
                    n_ = None
                    if name == 'strncmp':
                        if not (isinstance(vs[2], IV) and vs[2].concrete()):
                            raise NeedSplit(None, 'strncmp with a non-concrete length at %s' % pos(n))
                        n_ = vs[2].lo
                    a_, b_ = (strs[0][:n_], strs[1][:n_]) if n_ is not None else strs
                    return const(32, True, (a_ > b_) - (a_ < b_))
                raise NeedSplit(None, '%s on an abstract string at %s' % (name, pos(n)))
            if name == 'memcpy' and len(args) == 3:
                src = self.expr(args[1], env)
                cnt = self.expr(args[2], env)
                if isinstance(src, tuple) and src[:1] == ('ptr',) and isinstance(cnt, IV) and cnt.concrete():
                    buf, off = src[1], src[2]
                    val = 0
                    known = True
                    for i_ in range(cnt.lo):
                        j_ = off + i_
                        if 0 <= j_ < len(buf):
                            val |= (ord(buf[j_]) & 0xFF) << (8 * i_)
                        elif j_ == len(buf):
                            pass        # the terminating NUL of std::string
                        else:
                            self.ub_event('read-past-end-of-buffer(byte %d of a %d-byte string)' % (j_, len(buf)), n)
                            known = False
                    dst = strip_noncast(args[0])
                    while dst['kind'] in ('ImplicitCastExpr', 'CStyleCastExpr', 'CXXReinterpretCastExpr', 'CXXStaticCastExpr'):
                        dst = strip_noncast(children(dst)[-1])
                    if dst['kind'] == 'UnaryOperator' and dst.get('opcode') == '&':
                        lv = self.lval(children(dst)[0], env)
                        w_ = 8 * cnt.lo
                        self.store(lv, const(w_, False, val) if known else IV(w_, False, 0, (1 << w_) - 1), env)
                        return None
                raise AnalysisBroken('unmodelled memcpy at %s' % pos(n))
            if name in ('strchr', 'memchr') and len(args) >= 2:
                # search in a constant character table; strchr also finds the terminating NUL
                tab = self.expr(args[0], env)
                cv = self.expr(args[1], env)
                if not (isinstance(tab, tuple) and tab[0] == 'str' and isinstance(tab[1], str)):
                    raise AnalysisBroken('%s in something that is not a constant string at %s' % (name, pos(n)))
                if not (isinstance(cv, IV) and cv.concrete()):
                    raise NeedSplit(None, '%s of a non-concrete character' % name)
                text = tab[1] + ('\0' if name == 'strchr' else '')
                if name == 'memchr':
                    cnt = self.expr(args[2], env)
                    if not (isinstance(cnt, IV) and cnt.concrete()):
                        raise AnalysisBroken('memchr with a non-constant length at %s' % pos(n))
                    text = (tab[1] + '\0')[:cnt.lo]
                i_ = text.find(chr(cv.lo & 0xFF))
                return ('tabptr', tab[1], i_) if i_ >= 0 else None     # null pointer, as CXXNullPtrLiteralExpr
            if name in ('div', 'ldiv', 'lldiv') and len(args) == 2:
                # std::div: quotient truncated towards zero, remainder with the sign of the dividend
                a_, b_ = self.expr(args[0], env), self.expr(args[1], env)
                if not (isinstance(a_, IV) and isinstance(b_, IV) and b_.concrete()):
                    raise AnalysisBroken('std::div with a divisor that is not constant at %s' % pos(n))
                if b_.lo == 0:
                    self.ub_event('division-by-zero', n)
                    return Obj('std::div_t', {'quot': const(a_.w, True, 0), 'rem': const(a_.w, True, 0)}, 'div_t')
                if not a_.concrete():
                    raise NeedSplit(None, 'std::div of a non-concrete value')
                q_ = abs(a_.lo) // abs(b_.lo)
                if (a_.lo < 0) != (b_.lo < 0):
                    q_ = -q_
                r_ = a_.lo - q_ * b_.lo
                return Obj('std::div_t', {'quot': const(a_.w, True, q_), 'rem': const(a_.w, True, r_)}, 'div_t')
            if name == 'abs':
                v = self.expr(args[0], env)
                tlo, thi = rng(v.w, True)
                if v.lo == tlo:
                    if not v.concrete():
                        raise NeedSplit(('<=', tlo) if v.src == 'input' else None, 'abs of a class containing INT_MIN')
                    self.ub_event('abs-int-min', n)
                    return v          # what two's-complement hardware yields
                if v.lo >= 0:
                    return IV(v.w, v.signed, v.lo, v.hi, v.bits)
                if v.hi <= 0:
                    return self.make(v.w, v.signed, -v.hi, -max(v.lo, tlo + 1), None, n, 'abs')
                raise NeedSplit(('<', 0) if v.src == 'input' else None, 'abs of sign-straddling %r' % v)
            f = self.idx.func_by_id.get(did)
            if f is not None and (f.body is not None or getattr(f, 'defn', None)):
                return self.invoke(f, None, [self.expr(a, env) for a in args], n)
            if name == 'to_string':
                return ('num', self.expr(args[0], env))
            raise AnalysisBroken('unmodelled call of %s at %s' % (name, pos(n)))
        if kind == 'method':
            tobj = (dqt(obj) + ' ' + qt(obj)) if obj is not None else ''
            if 'std::optional' in tobj and name in ('has_value', 'value', 'emplace', 'reset', 'operator bool'):
                lv = self.lval(obj, env)
                cur = self.load(lv, env)
                if name in ('has_value', 'operator bool'):
                    return const(1, False, 0 if cur is None else 1)
                if name == 'value':
                    if cur is None:
                        raise Thrown('std::bad_optional_access')
                    return cur
                if name == 'emplace':
                    v = self.expr(args[0], env)
                    self.store(lv, v, env)
                    return v
                self.store(lv, None, env)
                return None
            if ('unique_ptr' in tobj or 'shared_ptr' in tobj) and name in ('get', 'release'):
                v = self.expr(obj, env)
                if isinstance(v, Moved):
                    v = v.value
                if name == 'release':
                    try:
                        self.store(self.lval(obj, env), None, env)
                    except AnalysisBroken:
                        pass
                return v
            o = self.expr(obj, env) if obj is not None else None
            if isinstance(o, Moved):
                o = o.value
            if o is None and obj is not None and ('*' in tobj or 'unique_ptr' in tobj):
                self.null_derefs.append(pos(n))
                raise Thrown('null pointer dereference')
            if isinstance(o, Vec):
                if name == 'size':
                    return const(64, False, len(o.items))
                if name in ('back', 'top', 'front'):
                    if not o.items:
                        self.ub_event('%s()-on-empty-container' % name, n)
                        raise Thrown('undefined behaviour: %s() on an empty container' % name)
                    return o.items[-1] if name != 'front' else o.items[0]
                if name in ('pop', 'pop_back'):
                    o.items.pop()
                    return None
                if name == 'push':
                    o.items.append(self.consume(self.expr(args[0], env), env))
                    return None
                if name == 'front':
                    return o.items[0]
                if name == 'empty':
                    return const(1, False, int(not o.items))
                if name == 'emplace_back' and len(args) == 2 and 'pair<' in (tobj or ''):
                    o.items.append(('pair', self.consume(self.expr(args[0], env), env), self.consume(self.expr(args[1], env), env)))
                    return None
                if name in ('push_back', 'emplace_back') and len(args) == 1:
                    o.items.append(self.consume(self.expr(args[0], env), env))
                    return None
                if name in ('reserve', 'shrink_to_fit'):
                    for a_ in args:
                        self.expr(a_, env)
                    return None
                if name == 'data':
                    return o
                if name == 'at':
                    iv = self.expr(args[0], env)
                    if not (isinstance(iv, IV) and iv.concrete()):
                        raise NeedSplit(None, 'index of at() not concrete at %s' % pos(n))
                    if not 0 <= iv.lo < len(o.items):
                        raise Thrown('std::out_of_range')
                    return o.items[iv.lo]
                if name == 'clear':
                    del o.items[:]
                    return None
                raise AnalysisBroken('unmodelled vector operation %s at %s' % (name, pos(n)))
            if isinstance(o, dict):
                if name == 'clear':
                    o.clear()
                    return None
                if name in ('lower_bound', 'upper_bound') and len(args) == 1:
                    # ordered map: first element whose key is not less than (lower) / greater than (upper) the argument
                    ends = self.__dict__.setdefault('_map_ends', {})
                    end = ends.setdefault(id(o), Obj('map-iterator', {}, 'end()'))
                    k_ = self.expr(args[0], env)
                    k_ = k_[1] if isinstance(k_, tuple) and k_[:1] == ('str',) else (k_.lo if isinstance(k_, IV) and k_.concrete() else None)
                    if k_ is None or any(type(x) is not type(k_) for x in o):
                        raise NeedSplit(None, 'map key not concrete at %s' % pos(n))
                    cands = sorted(x for x in o if (x >= k_ if name == 'lower_bound' else x > k_))
                    if not cands:
                        return end
                    return Obj('map-iterator', {'first': cands[0], 'second': o[cands[0]]}, 'iterator')
                if name in ('find', 'end', 'cend'):
                    ends = self.__dict__.setdefault('_map_ends', {})
                    end = ends.setdefault(id(o), Obj('map-iterator', {}, 'end()'))
                    if name != 'find':
                        return end
                    k_ = self.expr(args[0], env)
                    k_ = k_[1] if isinstance(k_, tuple) and k_[:1] == ('str',) else (k_.lo if isinstance(k_, IV) and k_.concrete() else k_)
                    try:
                        present = k_ in o
                    except TypeError:
                        present = False
                    if not present:
                        return end
                    return Obj('map-iterator', {'first': k_, 'second': o[k_]}, 'iterator')
                if name == 'count':
                    k_ = self.expr(args[0], env)
                    k_ = k_[1] if isinstance(k_, tuple) else k_
                    return const(64, False, 1 if k_ in o else 0)
                if name == 'insert' and len(args) == 1 and 'set<' in (tobj or ''):
                    k_ = self.expr(args[0], env)
                    k_ = k_[1] if isinstance(k_, tuple) and k_[:1] == ('str',) else (k_.lo if isinstance(k_, IV) and k_.concrete() else None)
                    if k_ is None:
                        raise NeedSplit(None, 'set element not concrete at %s' % pos(n))
                    o.setdefault(k_, True)
                    return None
                if name == 'empty':
                    return const(1, False, int(not o))
                if name == 'size':
                    return const(64, False, len(o))
                if name in ('emplace', 'try_emplace') and len(args) == 2:
                    k_ = self.expr(args[0], env)
                    k_ = k_[1] if isinstance(k_, tuple) and k_[:1] == ('str',) else (k_.lo if isinstance(k_, IV) and k_.concrete() else None)
                    if k_ is None:
                        raise NeedSplit(None, 'map key not concrete at %s' % pos(n))
                    v_ = self.consume(self.expr(args[1], env), env)
                    fresh = k_ not in o
                    if fresh:
                        o[k_] = v_
                    return ('pair', Obj('map-iterator', {'first': k_, 'second': o[k_]}, 'iterator'), const(1, False, int(fresh)))
                raise AnalysisBroken('unmodelled map operation %s at %s' % (name, pos(n)))
            if isinstance(o, tuple) and o and o[0] == 'str' and name in ('c_str', 'data') and self.pointer_model:
                return ('ptr', o[1], 0)
            if isinstance(o, tuple) and o and o[0] in ('str', 'cat', 'num', 'fmt') and name in ('c_str', 'str', 'data'):
                return o
            if isinstance(o, tuple) and o and o[0] == 'str' and name in ('size', 'length'):
                return const(64, False, len(o[1]))
            if isinstance(o, tuple) and o and o[0] == 'cat' and name in ('size', 'length') and str_chars(o) is not None:
                return const(64, False, len(str_chars(o)))
            if isinstance(o, tuple) and o and o[0] == 'str' and name == 'empty':
                return const(1, False, int(len(o[1]) == 0))
            if isinstance(o, tuple) and o and o[0] in ('str', 'cat', 'num') and name in ('push_back', 'append') and len(args) == 1:
                lv = self.lval(obj, env)
                self.store(lv, str_cat(o, self.expr(args[0], env)), env)
                return None
            if isinstance(o, tuple) and o and o[0] in ('str', 'cat', 'num') and name == 'assign' and len(args) == 1:
                self.store(self.lval(obj, env), self.expr(args[0], env), env)
                return None
            if isinstance(o, tuple) and o and o[0] in ('str', 'cat', 'num') and name == 'assign' and len(args) == 2:
                a, b = self.expr(args[0], env), self.expr(args[1], env)
                if isinstance(a, IV) and a.concrete() and isinstance(b, IV) and b.concrete():
                    self.store(self.lval(obj, env), ('str', chr(b.lo & 0xFF) * a.lo), env)     # assign(count, ch)
                    return None
            if isinstance(o, tuple) and o and o[0] == 'str' and name == 'pop_back' and not args:
                if not o[1]:
                    self.ub_event('pop_back()-on-empty-string', n)
                    raise Thrown('undefined behaviour: pop_back() on an empty string')
                self.store(self.lval(obj, env), ('str', o[1][:-1]), env)
                return None
            if isinstance(o, tuple) and o and o[0] == 'str' and name in ('back', 'front') and not args:
                if not o[1]:
                    self.ub_event('%s()-on-empty-string' % name, n)
                    raise Thrown('undefined behaviour: %s() on an empty string' % name)
                return const(8, True, ord(o[1][-1 if name == 'back' else 0]) if ord(o[1][-1 if name == 'back' else 0]) < 128 else ord(o[1][-1 if name == 'back' else 0]) - 256)
            if isinstance(o, tuple) and o and o[0] in ('str', 'cat', 'opaque', 'num') and name == 'clear':
                self.store(self.lval(obj, env), ('str', ''), env)
                return None
            if isinstance(o, Obj):
                f = self.resolve_method(o, name, did)
                if f is None:
                    raise AnalysisBroken('no body for %s::%s at %s' % (o.cls, name, pos(n)))
                return self.invoke(f, o, [self.expr(a, env) for a in args], n)
            if name == 'get' and isinstance(o, Obj) is False and o is not None:
                return o
            raise AnalysisBroken('unmodelled member call %s on %r at %s' % (name, o, pos(n)))
        raise AnalysisBroken('unresolved call at %s' % pos(n))

    def resolve_method(self, o, name, did):
        """Virtual dispatch by the dynamic class of the abstract object."""
        chain = [o.cls] + self.idx.bases_of(o.cls)
        decl = self.idx.func_by_id.get(did)
        if decl is not None and not (decl.node.get('virtual') or decl.node.get('pure')):
            # non-virtual call: statically bound to the named method
            if decl.body is not None:
                return decl
            if getattr(decl, 'defn', None):
                return decl.defn
        for c in chain:
            rec = self.idx.records.get(c)
            if not rec:
                continue
            for m in rec.methods:
                if m.name == name and (decl is None or (len(m.params) == len(decl.params) and
                                                        [qt(p) for p in m.params] == [qt(p) for p in decl.params])):
                    if m.body is not None:
                        return m
                    if getattr(m, 'defn', None):
                        return m.defn
        return None

    def construct(self, cls, argvals, obj=None, name=None):
        """Build an abstract object by interpreting the member initialisers of the user-provided constructor with
        len(argvals) parameters (bases are constructed recursively)."""
        rec = self.idx.record(cls)
        cands = [c for c in rec.ctors if not c.node.get('isImplicit') and len(c.params) == len(argvals)]
        if not cands:
            # fewer arguments than parameters: the remaining parameters take their default arguments
            more = [c for c in rec.ctors if not c.node.get('isImplicit') and len(c.params) > len(argvals) and
                    all(children(p_) for p_ in c.params[len(argvals):])]
            if more:
                c0 = sorted(more, key=lambda c_: len(c_.params))[0]
                argvals = list(argvals) + [self.expr(children(p_)[-1], {'this': None, 'locals': {}}) for p_ in c0.params[len(argvals):]]
                cands = [c0]
        if obj is None:
            obj = Obj(cls, {}, name or cls.split('::')[-1])
        if not cands:
            if not argvals:
                # implicit default constructor: default-construct the bases, apply in-class member initialisers
                for b in self.idx.bases_of(cls, transitive=False):
                    try:
                        self.construct(b, [], obj)
                    except AnalysisBroken:
                        pass
                for fd in rec.fields:
                    ini = [c_ for c_ in children(fd) if 'kind' in c_]
                    if ini and fd.get('name') not in obj.fields:
                        try:
                            v = self.expr(ini[-1], {'this': obj, 'locals': {}})
                            ti = tinfo(fd, self.idx)
                            if ti and isinstance(v, IV):
                                v = self.convert(v, ti[0], ti[1])
                            obj.fields[fd['name']] = v
                        except AnalysisBroken:
                            pass
                return obj
            raise AnalysisBroken('no %d-parameter constructor of %s' % (len(argvals), cls))
        if len(cands) > 1:
            # overloads of the same arity: prefer the one whose parameter types fit the kinds of the arguments
            def fits(c_):
                for prm, v in zip(c_.params, argvals):
                    t = qt(prm)
                    is_str_t = 'string' in t or 'char *' in t
                    if isinstance(v, tuple) and v and v[0] in ('str', 'cat', 'fmt') and not is_str_t:
                        return False
                    if isinstance(v, IV) and is_str_t:
                        return False
                    if isinstance(v, Vec) and 'vector' not in t:
                        return False
                return True
            cands = [c_ for c_ in cands if fits(c_)] or cands
        return self._construct_with(cls, cands[0], argvals, obj)

    def _construct_with(self, cls, c, argvals, obj):
        """Run one given constructor (initialisers, default member initialisers, body) on obj."""
        rec = self.idx.record(cls)
        env = {'this': obj, 'locals': {}}
        for prm, v in zip(c.params, argvals):
            if '&' not in qt(prm):
                v = self.consume(v)
            ti = tinfo(prm, self.idx)
            if ti and isinstance(v, IV):
                v = self.convert(v, ti[0], ti[1], prm)
            env['locals'][prm['id']] = v
        for ini in c.inits:
            ch = children(ini)
            if ini.get('delegatingInit'):
                # a delegating constructor: run the target constructor on the same object, then this body
                ce = ch[0] if ch else None
                while ce is not None and ce.get('kind') != 'CXXConstructExpr' and children(ce):
                    ce = children(ce)[0]
                if ce is None:
                    raise AnalysisBroken('delegating constructor of %s without a target' % cls)
                dargs = [self.expr(a, env) for a in children(ce) if a['kind'] != 'CXXDefaultArgExpr']
                ct = ((ce.get('ctorType') or {}).get('qualType') or '').strip()
                tgt = [c2 for c2 in rec.ctors if c2 is not c and c2.type.strip() == ct]
                if len(tgt) != 1:
                    raise AnalysisBroken('delegating constructor of %s: target not resolved' % cls)
                self._construct_with(cls, tgt[0], dargs, obj)
                continue
            if ini.get('baseInit'):
                bq = self.idx._resolve_record_name(ini['baseInit'].get('qualType', '').replace('class ', '').replace('struct ', ''), cls)
                if bq:
                    bargs = []
                    if ch and ch[0]['kind'] in ('CXXConstructExpr', 'CXXTemporaryObjectExpr', 'ExprWithCleanups'):
                        ce = ch[0]
                        while ce['kind'] != 'CXXConstructExpr' and children(ce):
                            ce = children(ce)[0]
                        bargs = [self.expr(a, env) for a in children(ce) if a['kind'] != 'CXXDefaultArgExpr']
                    self.construct(bq, bargs, obj)
                continue
            a = ini.get('anyInit') or {}
            if a.get('kind') == 'FieldDecl' and ch:
                try:
                    v = self.consume(self.expr(ch[0], env), env)
                except AnalysisBroken:
                    v = None
                if v == ('global', 'nullopt'):
                    v = None
                fd = self.idx.by_id.get(a.get('id')) or a
                ti = tinfo(fd, self.idx)
                if ti and isinstance(v, IV):
                    v = self.convert(v, ti[0], ti[1])
                    if fd.get('isBitfield') and not ti[1]:
                        # an unsigned bit-field keeps the low `width` bits
                        wexpr = [c_ for c_ in children(fd) if 'kind' in c_]
                        bw = const_int(wexpr[0], self.idx) if wexpr else None
                        if bw is None:
                            raise AnalysisBroken('bit-field %s of unknown width' % a.get('name'))
                        if v.concrete():
                            v = const(ti[0], ti[1], v.lo & ((1 << bw) - 1))
                        elif not (v.lo >= 0 and v.hi < (1 << bw)):
                            raise NeedSplit(None, 'store of a non-concrete value into the %d-bit field %s' % (bw, a.get('name')))
                if v is not None or not ti:
                    obj.fields[a['name']] = v
        # members the constructor does not mention take their default member initialiser
        for fd in rec.fields:
            ini = [c_ for c_ in children(fd) if 'kind' in c_]
            if fd.get('isBitfield'):
                ini = ini[1:]           # the first child of a bit-field is its width
            if ini and fd.get('name') not in obj.fields:
                try:
                    v = self.expr(ini[-1], {'this': obj, 'locals': {}})
                    ti = tinfo(fd, self.idx)
                    if ti and isinstance(v, IV):
                        v = self.convert(v, ti[0], ti[1])
                    obj.fields[fd['name']] = v
                except (AnalysisBroken, NeedSplit):
                    pass
        if c.body is not None:
            try:
                self.stmt(c.body, env)
            except _Return:
                pass
        return obj

    def invoke(self, f, this, argvals, n=None):
        if getattr(f, 'defn', None) and f.body is None:
            f = f.defn
        if self.depth > 12:
            raise AnalysisBroken('call depth exceeded in ' + f.qname)
        env = {'this': this, 'locals': {}}
        argvals = [v for v in argvals]
        while argvals and argvals[-1] is DEFAULT_ARG:
            argvals.pop()
        for prm, v in zip(f.params, argvals):
            if '&' not in qt(prm):
                v = self.consume(v)
            elif isinstance(v, Moved) and '&&' not in qt(prm):
                v = v.value
            ti = tinfo(prm, self.idx)
            if ti and isinstance(v, IV):
                v = self.convert(v, ti[0], ti[1], prm)
            env['locals'][prm['id']] = v
        for prm in f.params[len(argvals):]:
            # trailing parameters take their default arguments
            dflt = [c_ for c_ in children(prm) if 'kind' in c_]
            if dflt:
                try:
                    env['locals'][prm['id']] = self.expr(dflt[-1], {'this': this, 'locals': {}})
                except AnalysisBroken:
                    pass
        self.depth += 1
        try:
            self.stmt(f.body, env)
            rv = None
        except _Return as r:
            rv = r.v
        finally:
            self.depth -= 1
        rt = tinfo(f.type.split('(')[0].strip(), self.idx)
        if rt and isinstance(rv, IV):
            rv = self.convert(rv, rt[0], rt[1], n)
        return rv
